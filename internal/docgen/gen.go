package docgen

import (
	"fmt"
	"strings"

	"github.com/invopop/gobl/verifharness/internal/pubdata"
	"pgregory.net/rapid"
)

// Opts steers the plan generator.
type Opts struct {
	Kinds       []string // document kinds to draw from (default: invoice, order, delivery)
	Rule        string   // force a rounding rule ("currency" | "precise"); "" = draw
	MaxLines    int      // default 6
	FixedAtCur  bool     // fixed discount / charge / advance amounts at the currency's precision (C03)
	NoForeign   bool     // no foreign-currency items
	NoBreakdown bool
	InvoiceOnly bool
	TaxHeavy    bool // more combos per row, more surcharges / extensions / country overrides / keyed and exempt rates
	OnlyInclude bool // when a tax is included in prices, rows only carry that category (gross-sum relation of C02)
	Hostile     bool // legal but degenerate numbers: -100% / 0% / huge percentages (also for taxes), zero quantities and prices (C14)
}

var hostilePercents = []string{"-100%", "-100.0%", "-100.00%", "0%", "-0%", "100%", "-99.99%", "-101%", "1000000%", "0.0000001%", "-200%"}

// hostileMode is set while a plan is drawn with Opts.Hostile (generation is single threaded per process).
var hostileMode bool

var commonPercents = []string{"21%", "10%", "4%", "5.5%", "7%", "19%", "20%", "17.5%", "50%", "5%", "0.5%", "12.5%", "2.5%", "100%", "60%", "33.33%", "0%", "16%", "8.875%", "25%", "1.75%", "15%"}

var docCurrencies = []string{"EUR", "USD", "JPY", "KWD", "GBP", "CLP", "BHD", "MXN"}

// decimals of the currencies the generator uses (checked against gobl by the harness self-test)
var curDecimals = map[string]int{"EUR": 2, "USD": 2, "JPY": 0, "KWD": 3, "GBP": 2, "CLP": 0, "BHD": 3, "MXN": 2, "AED": 2, "BRL": 2, "CAD": 2, "CHF": 2, "COP": 2, "INR": 2, "PLN": 2}

// CurDecimals exposes the generator's currency table.
func CurDecimals(code string) int {
	if d, ok := curDecimals[code]; ok {
		return d
	}
	return 2
}

// decimal draws a decimal text with the given number of integer digits (at
// most) and decimals; biased to digits that sit on rounding boundaries.
func decimal(t *rapid.T, label string, maxIntDigits, decimals int, neg bool) string {
	var sb strings.Builder
	if neg {
		sb.WriteByte('-')
	}
	nd := rapid.IntRange(1, maxIntDigits).Draw(t, label+"_nd")
	for i := 0; i < nd; i++ {
		lo := 0
		if i == 0 && nd > 1 {
			lo = 1
		}
		sb.WriteByte(byte('0' + rapid.IntRange(lo, 9).Draw(t, label+"_d")))
	}
	if decimals > 0 {
		sb.WriteByte('.')
		for i := 0; i < decimals; i++ {
			var d int
			if i == decimals-1 {
				// last digit: favour 5 and odd digits (ties after halving / at the next coarser precision)
				d = rapid.SampledFrom([]int{5, 5, 5, 1, 3, 7, 9, 0, 0, 2, 4, 6, 8}).Draw(t, label+"_last")
			} else {
				d = rapid.SampledFrom([]int{0, 0, 0, 1, 2, 3, 4, 5, 5, 6, 7, 8, 9, 9}).Draw(t, label+"_f")
			}
			sb.WriteByte(byte('0' + d))
		}
	}
	return sb.String()
}

func sign(t *rapid.T, label string, pNeg int) bool {
	return rapid.IntRange(0, 99).Draw(t, label) < pNeg
}

func price(t *rapid.T, label string, c int) string {
	dec := rapid.SampledFrom([]int{c, c, c, 0, 1, 2, 3, 4, 4, 5, 6}).Draw(t, label+"_dec")
	maxInt := 4
	if dec >= 5 {
		maxInt = 2
	}
	return decimal(t, label, maxInt, dec, sign(t, label+"_neg", 8))
}

func quantity(t *rapid.T, label string) string {
	switch rapid.IntRange(0, 9).Draw(t, label+"_kind") {
	case 0, 1, 2, 3:
		return decimal(t, label, 2, 0, sign(t, label+"_neg", 10))
	case 4, 5:
		// x.5: halves an odd price
		return decimal(t, label, 2, 0, sign(t, label+"_neg", 10)) + ".5"
	case 6, 7:
		return decimal(t, label, 2, rapid.IntRange(1, 2).Draw(t, label+"_dec"), sign(t, label+"_neg", 10))
	case 8:
		return decimal(t, label, 1, rapid.IntRange(3, 4).Draw(t, label+"_dec4"), false)
	default:
		return rapid.SampledFrom([]string{"1", "0", "-1", "0.5", "3", "0.25"}).Draw(t, label+"_fix")
	}
}

func percent(t *rapid.T, label string) string {
	if hostileMode && rapid.IntRange(0, 9).Draw(t, label+"_hostile") < 3 {
		return rapid.SampledFrom(hostilePercents).Draw(t, label+"_hp")
	}
	if rapid.IntRange(0, 9).Draw(t, label+"_kind") < 8 {
		return rapid.SampledFrom(commonPercents).Draw(t, label)
	}
	neg := sign(t, label+"_neg", 10)
	return decimal(t, label, 2, rapid.IntRange(0, 3).Draw(t, label+"_dec"), neg) + "%"
}

func fixedAmount(t *rapid.T, label string, c int, atCur bool) string {
	dec := c
	if !atCur {
		dec = rapid.SampledFrom([]int{c, c, 0, 1, 2, 3, 4, 6}).Draw(t, label+"_dec")
	}
	return decimal(t, label, 3, dec, sign(t, label+"_neg", 8))
}

func genLineAdj(t *rapid.T, label string, c int, charge bool, o Opts) LineAdj {
	a := LineAdj{}
	k := rapid.IntRange(0, 9).Draw(t, label+"_kind")
	switch {
	case k < 4:
		a.Percent = percent(t, label+"_pct")
	case k < 6:
		a.Percent = percent(t, label+"_pct")
		a.Base = fixedAmount(t, label+"_base", c, false)
	case k < 8 || !charge:
		a.Amount = fixedAmount(t, label+"_amt", c, o.FixedAtCur)
	default:
		a.Rate = fixedAmount(t, label+"_rate", c, o.FixedAtCur)
		if rapid.Bool().Draw(t, label+"_hasq") {
			a.Quantity = quantity(t, label+"_q")
		}
	}
	// a row without a reason, where its numbers alone keep it from being empty
	if nonZero(a.Rate) || (nonZero(strings.TrimSuffix(a.Percent, "%")) && a.Percent != "") {
		a.Bare = rapid.IntRange(0, 3).Draw(t, label+"_bare") == 0
	}
	return a
}

func nonZero(s string) bool {
	return s != "" && strings.Trim(s, "-0.") != ""
}

func genSubLine(t *rapid.T, label string, c int, cur string, o Opts, foreignOK bool) (SubLine, []Rate) {
	s := SubLine{Quantity: quantity(t, label+"_qty"), Price: price(t, label+"_price", c)}
	var rates []Rate
	if foreignOK && !o.NoForeign && rapid.IntRange(0, 9).Draw(t, label+"_foreign") == 0 {
		fc := rapid.SampledFrom(docCurrencies).Draw(t, label+"_fcur")
		if fc != cur {
			s.ItemCurrency = fc
			s.Price = price(t, label+"_fprice", CurDecimals(fc))
			if rapid.Bool().Draw(t, label+"_alt") {
				s.AltPrices = []Money{{Currency: cur, Value: price(t, label+"_altprice", c)}}
			} else {
				rates = append(rates, Rate{From: fc, To: cur, Amount: decimal(t, label+"_xr", 2, rapid.IntRange(1, 4).Draw(t, label+"_xrd"), false)})
			}
		}
	}
	for i, n := 0, rapid.SampledFrom([]int{0, 0, 0, 1, 1, 2}).Draw(t, label+"_nd"); i < n; i++ {
		s.Discounts = append(s.Discounts, genLineAdj(t, fmt.Sprintf("%s_d%d", label, i), c, false, o))
	}
	for i, n := 0, rapid.SampledFrom([]int{0, 0, 0, 1, 1, 2}).Draw(t, label+"_nc"); i < n; i++ {
		s.Charges = append(s.Charges, genLineAdj(t, fmt.Sprintf("%s_c%d", label, i), c, true, o))
	}
	return s, rates
}

// combosFor draws the tax combos of a row from the regime's published categories.
// CombosFor is exported for checks that build their own rows.
func CombosFor(t *rapid.T, label string, regime string, include string, o Opts) []Combo {
	regs, list := pubdata.Regimes()
	var others []string
	for _, cc := range list {
		if cc == regime {
			continue
		}
		for _, cat := range regs[cc].Categories {
			if cat.Code == "VAT" {
				others = append(others, cc)
			}
		}
	}
	return combosFor(t, label, regs[regime], include, others, o)
}

func combosFor(t *rapid.T, label string, reg *pubdata.RegimeInfo, include string, others []string, o Opts) []Combo {
	if reg == nil || len(reg.Categories) == 0 {
		return nil
	}
	n := rapid.SampledFrom([]int{0, 1, 1, 1, 1, 2, 2, 3}).Draw(t, label+"_n")
	pKey, pSur, pExt, pCty := 3, 1, 1, 1 // out of 10 / 10 / 12 / 15
	if o.TaxHeavy {
		n = rapid.SampledFrom([]int{1, 1, 2, 2, 3, 4}).Draw(t, label+"_nh")
		pKey, pSur, pExt, pCty = 4, 3, 3, 3
	}
	if o.OnlyInclude && include != "" {
		n = rapid.SampledFrom([]int{0, 1, 1, 1}).Draw(t, label+"_no")
	}
	var out []Combo
	used := map[string]bool{}
	for i := 0; i < n; i++ {
		var cat pubdata.CategoryInfo
		if include != "" && i == 0 && (o.OnlyInclude || rapid.IntRange(0, 9).Draw(t, label+"_inc") < 8) {
			for _, c := range reg.Categories {
				if c.Code == include {
					cat = c
				}
			}
		}
		if cat.Code == "" {
			cat = reg.Categories[rapid.IntRange(0, len(reg.Categories)-1).Draw(t, label+"_cat")]
		}
		if used[cat.Code] {
			continue
		}
		used[cat.Code] = true
		cb := Combo{Cat: cat.Code}
		var keys []pubdata.RateInfo
		for _, r := range cat.Rates {
			if r.Exempt || (r.HasValues && (!r.Qualified || len(r.Exts) > 0)) {
				keys = append(keys, r)
			}
		}
		k := rapid.IntRange(0, 9).Draw(t, label+"_how")
		switch {
		case k < pKey && len(keys) > 0:
			kr := keys[rapid.IntRange(0, len(keys)-1).Draw(t, label+"_key")]
			cb.Rate = kr.Key
			// a rate whose value depends on an extension (PT regions): mostly with one
			if len(kr.Exts) > 0 && rapid.IntRange(0, 3).Draw(t, label+"_qual") > 0 {
				cb.Ext = map[string]string{}
				for k, v := range kr.Exts[rapid.IntRange(0, len(kr.Exts)-1).Draw(t, label+"_qualv")] {
					cb.Ext[k] = v
				}
			}
		default:
			cb.Percent = percent(t, label+"_pct")
			if strings.HasPrefix(cb.Percent, "-") && !hostileMode {
				cb.Percent = strings.TrimPrefix(cb.Percent, "-")
			}
			if rapid.IntRange(0, 9).Draw(t, label+"_sur") < pSur {
				cb.Surcharge = rapid.SampledFrom([]string{"5.2%", "1.4%", "0.5%", "1.75%"}).Draw(t, label+"_surv")
			}
		}
		if rapid.IntRange(0, 11).Draw(t, label+"_ext") < pExt {
			if cb.Ext == nil {
				cb.Ext = map[string]string{}
			}
			cb.Ext["xx-verif-group"] = rapid.SampledFrom([]string{"A", "B"}).Draw(t, label+"_extv")
		}
		if cb.Rate == "" && len(others) > 0 && rapid.IntRange(0, 14).Draw(t, label+"_cty") < pCty {
			if rapid.IntRange(0, 4).Draw(t, label+"_ctynone") == 0 {
				// a country for which no regime is defined: the category keeps the
				// meaning (ordinary or retained) the document's own regime gives it
				cb.Country = rapid.SampledFrom([]string{"AD", "JP", "AU"}).Draw(t, label+"_ctynonev")
			} else if cat.Code == "VAT" && rapid.IntRange(0, 2).Draw(t, label+"_ctyvat") > 0 {
				cb.Country = rapid.SampledFrom(others).Draw(t, label+"_ctyv")
			} else {
				// any category of any other regime, ordinary or retained
				regs, list := pubdata.Regimes()
				cc := rapid.SampledFrom(list).Draw(t, label+"_ctya")
				if fr := regs[cc]; cc != reg.Country && len(fr.Categories) > 0 {
					fc := fr.Categories[rapid.IntRange(0, len(fr.Categories)-1).Draw(t, label+"_ctyc")]
					if fc.Code == cat.Code || !used[fc.Code] {
						used[fc.Code] = true
						cb.Cat = fc.Code
						cb.Country = cc
					}
				}
			}
		}
		out = append(out, cb)
	}
	return out
}

// GenPlan draws a document plan.
func GenPlan(t *rapid.T, o Opts) Plan {
	hostileMode = o.Hostile
	defer func() { hostileMode = false }()
	regs, list := pubdata.Regimes()
	kinds := o.Kinds
	if len(kinds) == 0 {
		kinds = []string{"invoice", "invoice", "invoice", "invoice", "order", "delivery"}
	}
	if o.InvoiceOnly {
		kinds = []string{"invoice"}
	}
	p := Plan{Kind: rapid.SampledFrom(kinds).Draw(t, "kind"), IssueDate: "2024-06-13"}
	p.Regime = rapid.SampledFrom(list).Draw(t, "regime")
	reg := regs[p.Regime]
	cur := reg.Currency
	if rapid.IntRange(0, 9).Draw(t, "owncur") < 3 {
		p.Currency = rapid.SampledFrom(docCurrencies).Draw(t, "currency")
		cur = p.Currency
	}
	c := CurDecimals(cur)
	switch {
	case o.Rule != "":
		if !(o.Rule == "currency" && reg.Rounding == "currency" && rapid.Bool().Draw(t, "ruledefault")) {
			p.Rounding = o.Rule
		}
	default:
		p.Rounding = rapid.SampledFrom([]string{"", "", "precise", "currency", "currency"}).Draw(t, "rounding")
	}
	// VAT countries usable as per-combo overrides
	var others []string
	for _, cc := range list {
		if cc == p.Regime {
			continue
		}
		for _, cat := range regs[cc].Categories {
			if cat.Code == "VAT" {
				others = append(others, cc)
			}
		}
	}
	// the customer-rates tag: every combo belongs to the customer's country
	taxReg := reg
	if len(others) > 0 && rapid.IntRange(0, 11).Draw(t, "custrates") == 0 {
		p.CustomerRates = rapid.SampledFrom(others).Draw(t, "custcountry")
		taxReg = regs[p.CustomerRates]
	}
	if rapid.IntRange(0, 9).Draw(t, "includes") < 3 {
		var cands []string
		for _, cat := range taxReg.Categories {
			if !cat.Retained {
				cands = append(cands, cat.Code)
			}
		}
		if len(cands) > 0 {
			p.PricesInclude = rapid.SampledFrom(cands).Draw(t, "includecat")
		}
	}
	maxLines := o.MaxLines
	if maxLines == 0 {
		maxLines = 6
	}
	nl := rapid.IntRange(0, maxLines).Draw(t, "nlines")
	for i := 0; i < nl; i++ {
		label := fmt.Sprintf("l%d", i)
		sl, rates := genSubLine(t, label, c, cur, o, true)
		p.Rates = mergeRates(p.Rates, rates)
		l := Line{SubLine: sl}
		if !o.NoBreakdown && rapid.IntRange(0, 11).Draw(t, label+"_brk") == 0 {
			for j, n := 0, rapid.IntRange(1, 3).Draw(t, label+"_nb"); j < n; j++ {
				bs, r2 := genSubLine(t, fmt.Sprintf("%s_b%d", label, j), c, cur, o, true)
				p.Rates = mergeRates(p.Rates, r2)
				l.Breakdown = append(l.Breakdown, bs)
			}
			if rapid.Bool().Draw(t, label+"_noprice") {
				l.Price = ""
				l.ItemCurrency = ""
				l.AltPrices = nil
			}
		}
		if !o.NoBreakdown && rapid.IntRange(0, 19).Draw(t, label+"_sub") == 0 {
			ss, r2 := genSubLine(t, label+"_s0", c, cur, o, true)
			p.Rates = mergeRates(p.Rates, r2)
			l.Substituted = append(l.Substituted, ss)
		}
		if rapid.IntRange(0, 24).Draw(t, label+"_unpriced") == 0 && len(l.Breakdown) == 0 {
			l.Price = ""
			l.ItemCurrency = ""
			l.AltPrices = nil
		}
		l.Taxes = combosFor(t, label+"_tx", taxReg, p.PricesInclude, others, o)
		p.Lines = append(p.Lines, l)
	}
	docAdj := func(label string) DocAdj {
		a := DocAdj{}
		k := rapid.IntRange(0, 9).Draw(t, label+"_kind")
		switch {
		case k < 4:
			a.Percent = percent(t, label+"_pct")
		case k < 6:
			a.Percent = percent(t, label+"_pct")
			a.Base = fixedAmount(t, label+"_base", c, false)
		default:
			a.Amount = fixedAmount(t, label+"_amt", c, o.FixedAtCur)
		}
		a.Taxes = combosFor(t, label+"_tx", taxReg, p.PricesInclude, others, o)
		return a
	}
	for i, n := 0, rapid.SampledFrom([]int{0, 0, 0, 1, 1, 2}).Draw(t, "ndisc"); i < n; i++ {
		p.Discounts = append(p.Discounts, docAdj(fmt.Sprintf("dd%d", i)))
	}
	for i, n := 0, rapid.SampledFrom([]int{0, 0, 0, 1, 1, 2}).Draw(t, "nchrg"); i < n; i++ {
		p.Charges = append(p.Charges, docAdj(fmt.Sprintf("dc%d", i)))
	}
	for i, n := 0, rapid.SampledFrom([]int{0, 0, 0, 1, 1, 2}).Draw(t, "nadv"); i < n; i++ {
		a := Advance{}
		if rapid.Bool().Draw(t, fmt.Sprintf("adv%d_pct", i)) {
			a.Percent = rapid.SampledFrom([]string{"50%", "10%", "33.33%", "100%", "12.5%", "25%", "0%"}).Draw(t, fmt.Sprintf("adv%d_p", i))
		} else {
			a.Amount = fixedAmount(t, fmt.Sprintf("adv%d_a", i), c, o.FixedAtCur)
		}
		p.Advances = append(p.Advances, a)
	}
	for i, n := 0, rapid.SampledFrom([]int{0, 0, 0, 1, 2}).Draw(t, "ndue"); i < n; i++ {
		d := DueDate{}
		if rapid.IntRange(0, 3).Draw(t, fmt.Sprintf("due%d_pct", i)) > 0 {
			d.Percent = rapid.SampledFrom([]string{"50%", "40%", "33.33%", "100%", "12.5%", "60%"}).Draw(t, fmt.Sprintf("due%d_p", i))
		} else {
			d.Amount = fixedAmount(t, fmt.Sprintf("due%d_a", i), c, true)
		}
		// an instalment agreed in another currency, with the rate to it
		if !o.NoForeign && rapid.IntRange(0, 5).Draw(t, fmt.Sprintf("due%d_cur", i)) == 0 {
			if fc := rapid.SampledFrom(docCurrencies).Draw(t, fmt.Sprintf("due%d_fc", i)); fc != cur {
				d.Currency = fc
				p.Rates = mergeRates(p.Rates, []Rate{{From: cur, To: fc, Amount: decimal(t, fmt.Sprintf("due%d_xr", i), 1, 2, false)}})
			}
		}
		p.DueDates = append(p.DueDates, d)
	}
	p.Stale = rapid.IntRange(0, 5).Draw(t, "stale") == 0
	if rapid.IntRange(0, 14).Draw(t, "trounding") == 0 {
		p.TotalsRounding = decimal(t, "trnd", 1, c, sign(t, "trnd_neg", 50))
	}
	return p
}

func mergeRates(have, add []Rate) []Rate {
	for _, r := range add {
		dup := false
		for _, h := range have {
			if h.From == r.From && h.To == r.To {
				dup = true
			}
		}
		if !dup {
			have = append(have, r)
		}
	}
	return have
}
