// Package docgen describes bill documents (invoice, order, delivery) as a
// plain, JSON-serialisable Plan, turns a Plan into the JSON text gobl parses,
// and provides rapid generators for plans. A Plan is the "case" of the
// calculation properties (C01, C02, C03, C17): the reference calculator works
// from the Plan, the real code works from the JSON text.
package docgen

import (
	"encoding/json"
	"fmt"
)

// Plan is a whole document. All numbers are decimal strings exactly as they
// will appear in the JSON text.
type Plan struct {
	Kind           string    `json:"kind"`                     // invoice | order | delivery
	Regime         string    `json:"regime"`                   // country code of the tax regime
	Currency       string    `json:"currency,omitempty"`       // empty: regime default
	Rounding       string    `json:"rounding,omitempty"`       // "", precise, currency
	PricesInclude  string    `json:"prices_include,omitempty"` // category code
	IssueDate      string    `json:"issue_date"`
	Rates          []Rate    `json:"exchange_rates,omitempty"`
	Lines          []Line    `json:"lines,omitempty"`
	Discounts      []DocAdj  `json:"discounts,omitempty"`
	Charges        []DocAdj  `json:"charges,omitempty"`
	Advances       []Advance `json:"advances,omitempty"`
	DueDates       []DueDate `json:"due_dates,omitempty"`
	TotalsRounding string    `json:"totals_rounding,omitempty"` // totals.rounding supplied as input
	// CustomerRates, when set, is the tax country of the customer and the
	// document carries the customer-rates tag: every combo is resolved in that
	// country's regime.
	CustomerRates string `json:"customer_rates,omitempty"`
	// Stale fills every calculated member (line sums and totals, indexes,
	// totals.*, tax summary) with left-over values: calculation must replace
	// them all.
	Stale bool `json:"stale,omitempty"`
}

// Rate is an exchange rate.
type Rate struct {
	From   string `json:"from"`
	To     string `json:"to"`
	Amount string `json:"amount"`
}

// Money is an amount in a currency (alternative price).
type Money struct {
	Currency string `json:"currency"`
	Value    string `json:"value"`
}

// Combo is a tax combo of a row.
type Combo struct {
	Cat       string            `json:"cat"`
	Rate      string            `json:"rate,omitempty"`
	Percent   string            `json:"percent,omitempty"` // with % symbol
	Surcharge string            `json:"surcharge,omitempty"`
	Country   string            `json:"country,omitempty"`
	Ext       map[string]string `json:"ext,omitempty"`
}

// LineAdj is a line discount or charge.
type LineAdj struct {
	Percent  string `json:"percent,omitempty"`
	Base     string `json:"base,omitempty"`
	Amount   string `json:"amount,omitempty"`
	Rate     string `json:"rate,omitempty"`     // charges only
	Quantity string `json:"quantity,omitempty"` // charges only
	// Bare leaves out the reason: the row is then described by its numbers alone
	Bare bool `json:"bare,omitempty"`
}

// SubLine is a breakdown / substituted entry.
type SubLine struct {
	Quantity     string    `json:"quantity"`
	Price        string    `json:"price,omitempty"`
	ItemCurrency string    `json:"item_currency,omitempty"`
	AltPrices    []Money   `json:"alt_prices,omitempty"`
	Discounts    []LineAdj `json:"discounts,omitempty"`
	Charges      []LineAdj `json:"charges,omitempty"`
}

// Line is a document line.
type Line struct {
	SubLine
	Breakdown   []SubLine `json:"breakdown,omitempty"`
	Substituted []SubLine `json:"substituted,omitempty"`
	Taxes       []Combo   `json:"taxes,omitempty"`
}

// DocAdj is a document level discount or charge.
type DocAdj struct {
	Percent string  `json:"percent,omitempty"`
	Base    string  `json:"base,omitempty"`
	Amount  string  `json:"amount,omitempty"`
	Taxes   []Combo `json:"taxes,omitempty"`
}

// Advance is a payment advance.
type Advance struct {
	Percent string `json:"percent,omitempty"`
	Amount  string `json:"amount,omitempty"`
}

// DueDate is a payment term due date.
type DueDate struct {
	Percent string `json:"percent,omitempty"`
	Amount  string `json:"amount,omitempty"`
	// Currency the instalment was agreed in, when not the document's (the
	// plan then also carries an exchange rate from the document currency to it)
	Currency string `json:"currency,omitempty"`
}

// Schema returns the $schema URL of the plan's document kind.
func (p Plan) Schema() string {
	return "https://gobl.org/draft-0/bill/" + p.Kind
}

type obj = map[string]any

func combos(cs []Combo) []any {
	out := make([]any, 0, len(cs))
	for _, c := range cs {
		o := obj{"cat": c.Cat}
		if c.Rate != "" {
			o["rate"] = c.Rate
		}
		if c.Percent != "" {
			o["percent"] = c.Percent
		}
		if c.Surcharge != "" {
			o["surcharge"] = c.Surcharge
		}
		if c.Country != "" {
			o["country"] = c.Country
		}
		if len(c.Ext) > 0 {
			o["ext"] = c.Ext
		}
		out = append(out, o)
	}
	return out
}

func lineAdjs(as []LineAdj, reason string) []any {
	out := make([]any, 0, len(as))
	for _, a := range as {
		o := obj{"reason": reason}
		if a.Bare {
			o = obj{}
		}
		if a.Percent != "" {
			o["percent"] = a.Percent
		}
		if a.Base != "" {
			o["base"] = a.Base
		}
		if a.Amount != "" {
			o["amount"] = a.Amount
		}
		if a.Rate != "" {
			o["rate"] = a.Rate
		}
		if a.Quantity != "" {
			o["quantity"] = a.Quantity
		}
		out = append(out, o)
	}
	return out
}

func subLine(s SubLine, name string) obj {
	item := obj{"name": name}
	if s.Price != "" {
		item["price"] = s.Price
	}
	if s.ItemCurrency != "" {
		item["currency"] = s.ItemCurrency
	}
	if len(s.AltPrices) > 0 {
		ap := []any{}
		for _, m := range s.AltPrices {
			ap = append(ap, obj{"currency": m.Currency, "value": m.Value})
		}
		item["alt_prices"] = ap
	}
	o := obj{"quantity": s.Quantity, "item": item}
	if len(s.Discounts) > 0 {
		o["discounts"] = lineAdjs(s.Discounts, "discount")
	}
	if len(s.Charges) > 0 {
		o["charges"] = lineAdjs(s.Charges, "charge")
	}
	return o
}

// Doc builds the document as a generic JSON object.
func (p Plan) Doc() map[string]any {
	d := obj{
		"$schema":    p.Schema(),
		"$regime":    p.Regime,
		"uuid":       "0190f3a1-7c2b-7000-8000-000000000001",
		"issue_date": p.IssueDate,
		"supplier":   obj{"name": "Supplier Ltd."},
	}
	switch p.Kind {
	case "invoice":
		d["code"] = "INV-1"
		d["customer"] = obj{"name": "Customer Ltd."}
	case "order":
		d["code"] = "ORD-1"
	case "delivery":
		d["code"] = "DEL-1"
	}
	if p.CustomerRates != "" {
		d["$tags"] = []any{"customer-rates"}
		d["customer"] = obj{"name": "Customer Ltd.", "tax_id": obj{"country": p.CustomerRates}}
	}
	if p.Currency != "" {
		d["currency"] = p.Currency
	}
	if len(p.Rates) > 0 {
		rs := []any{}
		for _, r := range p.Rates {
			rs = append(rs, obj{"from": r.From, "to": r.To, "amount": r.Amount})
		}
		d["exchange_rates"] = rs
	}
	if p.Rounding != "" || p.PricesInclude != "" {
		tx := obj{}
		if p.Rounding != "" {
			tx["rounding"] = p.Rounding
		}
		if p.PricesInclude != "" {
			tx["prices_include"] = p.PricesInclude
		}
		d["tax"] = tx
	}
	lines := []any{}
	for i, l := range p.Lines {
		lo := subLine(l.SubLine, fmt.Sprintf("item %d", i+1))
		if len(l.Breakdown) > 0 {
			bs := []any{}
			for j, s := range l.Breakdown {
				bs = append(bs, subLine(s, fmt.Sprintf("part %d.%d", i+1, j+1)))
			}
			lo["breakdown"] = bs
		}
		if len(l.Substituted) > 0 {
			bs := []any{}
			for j, s := range l.Substituted {
				bs = append(bs, subLine(s, fmt.Sprintf("subst %d.%d", i+1, j+1)))
			}
			lo["substituted"] = bs
		}
		if len(l.Taxes) > 0 {
			lo["taxes"] = combos(l.Taxes)
		}
		if p.Stale {
			lo["i"] = 70 + i
			lo["sum"] = "999.99"
			lo["total"] = "888.88"
		}
		lines = append(lines, lo)
	}
	if len(lines) > 0 {
		d["lines"] = lines
	}
	adj := func(as []DocAdj, reason string) []any {
		out := []any{}
		for _, a := range as {
			o := obj{"reason": reason}
			if a.Percent != "" {
				o["percent"] = a.Percent
			}
			if a.Base != "" {
				o["base"] = a.Base
			}
			if a.Amount != "" {
				o["amount"] = a.Amount
			}
			if len(a.Taxes) > 0 {
				o["taxes"] = combos(a.Taxes)
			}
			out = append(out, o)
		}
		return out
	}
	if len(p.Discounts) > 0 {
		d["discounts"] = adj(p.Discounts, "discount")
	}
	if len(p.Charges) > 0 {
		d["charges"] = adj(p.Charges, "charge")
	}
	if (len(p.Advances) > 0 || len(p.DueDates) > 0) && p.Kind != "delivery" {
		pay := obj{}
		if len(p.Advances) > 0 {
			as := []any{}
			for _, a := range p.Advances {
				o := obj{"description": "advance"}
				if a.Percent != "" {
					o["percent"] = a.Percent
				}
				if a.Amount != "" {
					o["amount"] = a.Amount
				}
				as = append(as, o)
			}
			pay["advances"] = as
		}
		if len(p.DueDates) > 0 {
			ds := []any{}
			for i, dd := range p.DueDates {
				o := obj{"date": fmt.Sprintf("2030-01-%02d", i+1)}
				if dd.Percent != "" {
					o["percent"] = dd.Percent
				}
				if dd.Currency != "" {
					o["currency"] = dd.Currency
				}
				if dd.Amount != "" {
					o["amount"] = dd.Amount
				}
				ds = append(ds, o)
			}
			pay["terms"] = obj{"due_dates": ds}
		}
		d["payment"] = pay
	}
	if p.TotalsRounding != "" || p.Stale {
		// calculation resets everything except rounding
		t := obj{"sum": "0", "total": "0", "total_with_tax": "0", "payable": "0"}
		if p.TotalsRounding != "" {
			t["rounding"] = p.TotalsRounding
		}
		if p.Stale {
			t = obj{"sum": "111.11", "discount": "22.22", "charge": "33.33", "tax_included": "4.44", "total": "555.55", "tax": "66.66",
				"total_with_tax": "777.77", "payable": "888.88", "advance": "9.99", "due": "10.10",
				"taxes": obj{"sum": "66.66", "categories": []any{obj{"code": "VAT", "amount": "66.66", "surcharge": "1.11",
					"rates": []any{obj{"key": "standard", "base": "300.00", "percent": "21%", "amount": "63.00", "surcharge": obj{"percent": "1%", "amount": "3.00"}}}}}}}
			if p.TotalsRounding != "" {
				t["rounding"] = p.TotalsRounding
			}
		}
		d["totals"] = t
	}
	return d
}

// JSON renders the document text.
func (p Plan) JSON() []byte {
	out, err := json.Marshal(p.Doc())
	if err != nil {
		panic(err)
	}
	return out
}
